"""B3 stand-in for C05: moves / renames of definitions, modules and packages on real projects, executed before and after.
 grid : 8 client import styles x 10 scenarios (move global function / variable to another module, move module / package into a package, rename
        module / package, module to package): main.py must print the same and every module must still import -- or the request is refused.
 plus : bare relative imports inside a module turned into a package, destination names that are prefixes of existing imports, aliased from-imports of a
        moved module, move method to an attribute's class."""
import os
import shutil
import subprocess
import sys
import tempfile
import warnings

CLIENTS = {
    "plain": "import src\nprint(src.helper(1), src.CONST)\n",
    "from": "from src import helper, CONST\nprint(helper(1), CONST)\n",
    "from_as": "from src import helper as h, CONST\nprint(h(1), CONST)\n",
    "import_as": "import src as s\nprint(s.helper(1), s.CONST)\n",
    "pkg_plain": "import pkg.mod\nprint(pkg.mod.inner(2))\n",
    "pkg_from": "from pkg import mod\nprint(mod.inner(2))\n",
    "pkg_from_name": "from pkg.mod import inner\nprint(inner(2))\n",
    "pkg_as": "import pkg.mod as pm\nprint(pm.inner(2))\n",
    "pkg_from_as_multi": "from pkg import mod as tu, sib\nprint(tu.inner(2), sib.S)\n",
}
SCEN = ["move helper->dest", "move CONST->dest", "move module src->sub", "move module pkg.mod->sub", "move package pkg->sub", "rename module src->src2",
        "rename package pkg->pkgx", "rename module pkg.mod->mod2", "to package src", "to package pkg.mod"]
# scenarios whose result is a circular import created by the request itself (the moved function needs its old module and vice versa): not counted
CIRCULAR = {"move helper->dest", "move CONST->dest"}


def domain(tier, seed):
    return [("grid", c, s) for c in sorted(CLIENTS) for s in SCEN] + [("extra", k, None) for k in sorted(EXTRA)]


def _run(root, entry="main.py"):
    r = subprocess.run([sys.executable, "-B", entry], cwd=root, capture_output=True, text=True, timeout=60)
    return (r.returncode, r.stdout, (r.stderr.strip().splitlines() or [""])[-1])


def _setup(client):
    from rope.base.project import Project
    root = tempfile.mkdtemp(prefix="verif-c05-")
    p = Project(root, ropefolder=None)
    p.root.create_file("src.py").write("import os\nCONST = 5\ndef helper(a):\n    return a + CONST + len(os.sep)\n\ndef other():\n    return helper(2)\n")
    p.root.create_file("dest.py").write("X = 1\n")
    pk = p.root.create_folder("pkg")
    pk.create_file("__init__.py")
    pk.create_file("mod.py").write("from . import sib\nfrom .sib import S\ndef inner(a):\n    return a + sib.S + S\n")
    pk.create_file("sib.py").write("S = 10\n")
    sub = p.root.create_folder("sub")
    sub.create_file("__init__.py")
    p.root.create_file("main.py").write(CLIENTS[client] + "import src\nprint(src.other())\n")
    return root, p


def _change(p, sn):
    from rope.refactor import move, rename
    from rope.refactor.topackage import ModuleToPackage
    src = p.get_file("src.py")
    return {
        "move helper->dest": lambda: move.create_move(p, src, src.read().index("helper")).get_changes(p.get_file("dest.py")),
        "move CONST->dest": lambda: move.create_move(p, src, src.read().index("CONST")).get_changes(p.get_file("dest.py")),
        "move module src->sub": lambda: move.create_move(p, src).get_changes(p.get_folder("sub")),
        "move module pkg.mod->sub": lambda: move.create_move(p, p.get_file("pkg/mod.py")).get_changes(p.get_folder("sub")),
        "move package pkg->sub": lambda: move.create_move(p, p.get_folder("pkg")).get_changes(p.get_folder("sub")),
        "rename module src->src2": lambda: rename.Rename(p, src).get_changes("src2"),
        "rename package pkg->pkgx": lambda: rename.Rename(p, p.get_folder("pkg")).get_changes("pkgx"),
        "rename module pkg.mod->mod2": lambda: rename.Rename(p, p.get_file("pkg/mod.py")).get_changes("mod2"),
        "to package src": lambda: ModuleToPackage(p, src).get_changes(),
        "to package pkg.mod": lambda: ModuleToPackage(p, p.get_file("pkg/mod.py")).get_changes(),
    }[sn]()


def _files(root):
    out = {}
    for r, ds, fs in os.walk(root):
        for x in fs:
            if x.endswith(".py"):
                out[os.path.relpath(os.path.join(r, x), root)] = open(os.path.join(r, x)).read()
    return out


def run_case(case):
    warnings.simplefilter("ignore")
    from rope.base import exceptions
    kind, a, b = case
    if kind == "extra":
        return EXTRA[a]()
    root, p = _setup(a)
    try:
        before = _run(root)
        try:
            p.do(_change(p, b))
        except exceptions.RopeError:
            return {"status": "ok", "nontrivial": False, "key": repr(case)}
        except Exception as e:
            return {"status": "fail", "why": "%s with client style %s raised %s: %s" % (b, a, type(e).__name__, str(e)[:70]),
                    "clause": "refused with the library's error, never an internal exception", "observed": {"exception": type(e).__name__}}
        after = _run(root)
        if after != before:
            if b in CIRCULAR and "circular import" in after[2] or (b in CIRCULAR and "partially initialized" in after[2]):
                return {"status": "skip", "why": "the requested move itself creates a circular import"}
            return {"status": "fail", "why": "%s with client style %s: main.py gave %r before and %r after" % (b, a, before, after),
                    "clause": "every importer still works and behaviour is unchanged", "observed": {"files": _files(root)}}
        return {"status": "ok", "nontrivial": True, "key": repr(case)}
    finally:
        p.close()
        shutil.rmtree(root, ignore_errors=True)


def _project(files):
    from rope.base.project import Project
    root = tempfile.mkdtemp(prefix="verif-c05x-")
    for path, src in files.items():
        full = os.path.join(root, path)
        os.makedirs(os.path.dirname(full), exist_ok=True)
        with open(full, "w") as f:
            f.write(src)
    return root, Project(root, ropefolder=None)


def _extra(files, act, name):
    def run():
        from rope.base import exceptions
        root, p = _project(files)
        try:
            before = _run(root)
            try:
                p.do(act(p))
            except exceptions.RopeError:
                return {"status": "ok", "nontrivial": False, "key": name}
            except Exception as e:
                return {"status": "fail", "why": "%s raised %s: %s" % (name, type(e).__name__, str(e)[:70]), "clause": "refused with the library's error",
                        "observed": {"exception": type(e).__name__}, "witness_case": ["extra", name]}
            after = _run(root)
            if after != before:
                return {"status": "fail", "why": "%s: main.py gave %r before and %r after" % (name, before, after),
                        "clause": "every importer still works and behaviour is unchanged", "observed": {"files": _files(root)}, "witness_case": ["extra", name]}
            return {"status": "ok", "nontrivial": True, "key": name}
        finally:
            p.close()
            shutil.rmtree(root, ignore_errors=True)
    return run


def _mk_extra():
    from rope.refactor import move
    from rope.refactor.topackage import ModuleToPackage
    ex = {}
    ex["to_package_with_bare_relative_import"] = _extra(
        {"shop/__init__.py": "", "shop/rates.py": "VAT = 2\n", "shop/pricing.py": "from . import rates\nfrom .rates import VAT\n\n\ndef price(x):\n    return x * rates.VAT + VAT\n",
         "main.py": "from shop import pricing\nprint(pricing.price(3))\n"},
        lambda p: ModuleToPackage(p, p.get_file("shop/pricing.py")).get_changes(), "to_package_with_bare_relative_import")
    ex["move_global_dest_is_prefix_of_existing_import"] = _extra(
        {"geometry.py": "def area(w, h):\n    return w * h\n", "shapes.py": "UNIT = 1\n", "shapes_legacy.py": "OLD = 0\n",
         "main.py": "import shapes_legacy\nimport geometry\nprint(geometry.area(2, 3), shapes_legacy.OLD)\n"},
        lambda p: move.create_move(p, p.get_file("geometry.py"), 4).get_changes(p.get_file("shapes.py")), "move_global_dest_is_prefix_of_existing_import")
    ex["move_module_aliased_from_import"] = _extra(
        {"app/__init__.py": "", "app/textutil.py": "def shout(s):\n    return s.upper()\n", "app/config.py": "NAME = 'n'\n", "lib/__init__.py": "",
         "main.py": "from app import textutil as tu, config\nprint(tu.shout(config.NAME))\n"},
        lambda p: move.create_move(p, p.get_file("app/textutil.py")).get_changes(p.get_folder("lib")), "move_module_aliased_from_import")
    ex["move_method_to_attribute_class"] = _extra(
        {"main.py": "class Engine:\n    def __init__(self):\n        self.power = 3\n\n\nclass Car:\n    def __init__(self):\n        self.engine = Engine()\n\n    def boost(self, n):\n        return self.engine.power * n\n\n\nprint(Car().boost(2))\n"},
        lambda p: move.create_move(p, p.get_file("main.py"), p.get_file("main.py").read().index("boost")).get_changes("engine", "boost_it"), "move_method_to_attribute_class")
    ex["move_global_used_via_from_import_in_package"] = _extra(
        {"pkg/__init__.py": "", "pkg/a.py": "import os\n\n\ndef tool(x):\n    return x + len(os.sep)\n\n\nKEEP = 1\n", "pkg/b.py": "B = 2\n",
         "main.py": "from pkg.a import tool, KEEP\nimport pkg.a\nprint(tool(1), pkg.a.tool(2), KEEP)\n"},
        lambda p: move.create_move(p, p.get_file("pkg/a.py"), p.get_file("pkg/a.py").read().index("tool")).get_changes(p.get_file("pkg/b.py")), "move_global_used_via_from_import_in_package")
    return ex


class _Lazy(dict):
    def _load(self):
        if not dict.__len__(self):
            self.update(_mk_extra())

    def __iter__(self):
        self._load()
        return dict.__iter__(self)

    def __getitem__(self, k):
        self._load()
        return dict.__getitem__(self, k)


EXTRA = _Lazy()

"""B3 stand-in for C07: import actions on small modules inside a real package layout (pkg/{__init__,mod,other}.py, top/{__init__,sib,m}.py).
 domain : import blocks of <= 2 statements (permutations of 14 statement forms) x 2 usages out of 16 x 5 actions (organize, expand stars, froms to
          imports, relatives to absolutes, handle long imports).
 clauses: the result compiles; executing it inside the package prints what the original printed (every used name resolves to the same object; names
          exported through __all__ stay importable); a second application changes nothing; lines that are not imports are untouched.
 plus fixed scenarios (prefix-sharing packages, intermediate-package use, offset-restricted organize)."""
import contextlib
import io
import itertools
import os
import shutil
import sys
import tempfile
import warnings

STMTS = ["import pkg", "import pkg.mod", "import pkg.mod as pm", "from pkg import mod", "from pkg import mod as m2", "from pkg.mod import a",
         "from pkg.mod import a as aa, b", "from pkg.mod import *", "import os", "import os, sys", "from __future__ import annotations", "from . import sib",
         "from .sib import s", "import pkg.other"]
USES = ["pkg", "pkg.mod.a", "pm.a", "mod.a", "m2", "a", "aa", "b", "os.sep", "sys", "sib", "s", "pkg.other.o", "pkg.mod.b", "__all__ = ['a']", "__all__ = ['mod']"]
ACTS = ["organize_imports", "expand_star_imports", "froms_to_imports", "relatives_to_absolutes", "handle_long_imports"]
FIXED = [
    ("import app.util\nimport app.core.engine\n", "print(app.util.U, app.core.VERSION)\n"),
    ("import app.core.engine\nimport app.util\n", "print(app.util.U, app.core.VERSION)\n"),
    ("import log\nimport logutils.handlers\n", "print(log.L, logutils.handlers.H)\n"),
    ("import logutils.handlers\nimport log\n", "print(log.L, logutils.handlers.H)\n"),
    ("import xml\nimport xmlrpc.client\n", "print(xml.__name__, xmlrpc.client.__name__)\n"),
    ("import pkg\nimport pkg.mod\n", "print(pkg.mod.a, pkg)\n"),
]
OFFSET = ("import os\nfrom shapes import area\nfrom shapes import perimeter\n", "print(area(1), perimeter(1), os.sep)\n")


def domain(tier, seed):
    cases = []
    for k in (1, 2):
        stm = STMTS if (k == 1 or tier == "thorough") else STMTS[:10] + STMTS[13:]
        for imps in itertools.permutations(stm, k):
            if "from __future__ import annotations" in imps and imps[0] != "from __future__ import annotations":
                continue
            uses = itertools.combinations(USES, 2) if tier == "thorough" or k == 1 else itertools.combinations(USES[:10] + USES[12:], 2)
            for us in uses:
                cases.append(("grid", imps, us))
    cases += [("fixed", i, None) for i in range(len(FIXED))] + [("offset", 0, None)]
    cases += [("relative", act, shadow) for act in ACTS for shadow in (False, True)]
    cases += [("relative", act, "with-package-import") for act in ACTS]
    return cases


_P = {}


def _env():
    if _P.get("pid") != os.getpid():
        from rope.base.project import Project
        d = tempfile.mkdtemp(prefix="verif-c07-")
        p = Project(d, ropefolder=None)
        pk = p.root.create_folder("pkg")
        pk.create_file("__init__.py")
        pk.create_file("mod.py").write("a = 1\nb = 2\n")
        pk.create_file("other.py").write("o = 1\n")
        top = p.root.create_folder("top")
        top.create_file("__init__.py")
        top.create_file("sib.py").write("s = 1\n")
        app = p.root.create_folder("app")
        app.create_file("__init__.py")
        app.create_file("util.py").write("U = 'u'\n")
        core = app.create_folder("core")
        core.create_file("__init__.py").write("VERSION = 3\n")
        core.create_file("engine.py").write("E = 1\n")
        p.root.create_file("log.py").write("L = 'l'\n")
        lu = p.root.create_folder("logutils")
        lu.create_file("__init__.py")
        lu.create_file("handlers.py").write("H = 'h'\n")
        p.root.create_file("shapes.py").write("def area(x):\n    return x\n\n\ndef perimeter(x):\n    return 2 * x\n")
        f = top.create_file("m.py")
        sys.path.insert(0, d)
        _P.update(pid=os.getpid(), d=d, p=p, f=f)
    return _P["p"], _P["f"]


def _run(src):
    out = io.StringIO()
    g = {"__name__": "top.m", "__package__": "top"}
    try:
        with contextlib.redirect_stdout(out):
            exec(compile(src, "m", "exec"), g)
    except BaseException as e:
        return out.getvalue() + "!" + type(e).__name__, g
    return out.getvalue(), g


def _non_import_lines(src):
    return [l for l in src.split("\n") if l.strip() and not l.lstrip().startswith(("import ", "from "))]


def _relative_case(act, shadow):
    """A module INSIDE a package with explicit relative imports (`from .utils import helper`, `from .other import thing`), optionally with an unrelated
    top-level module of the same name: every action must leave `python -m pkg.main` printing the same."""
    import shutil
    import subprocess
    import sys
    import tempfile
    from rope.base.project import Project
    from rope.refactor.importutils import ImportOrganizer
    root = tempfile.mkdtemp(prefix="verif-c07r-")
    try:
        files = {"pkg/__init__.py": "", "pkg/utils.py": "def helper():\n    return 'pkg.utils'\n", "pkg/other.py": "thing = 'pkg.other'\n",
                 "pkg/main.py": "from .utils import helper\nfrom .other import thing\n\nprint(helper(), thing)\n"}
        if shadow == "with-package-import":
            files["pkg/main.py"] = "from .utils import helper\nfrom .other import thing\nfrom . import other\n\nprint(helper(), thing, other.thing)\n"
        elif shadow:
            files["utils.py"] = "def helper():\n    return 'top-level utils'\n"
        for path, src in files.items():
            full = os.path.join(root, path)
            os.makedirs(os.path.dirname(full), exist_ok=True)
            with open(full, "w") as fh:
                fh.write(src)

        def run():
            r = subprocess.run([sys.executable, "-B", "-m", "pkg.main"], cwd=root, capture_output=True, text=True, timeout=30)
            return r.stdout + ("!rc=%d %s" % (r.returncode, (r.stderr.strip().splitlines() or [""])[-1]) if r.returncode else "")
        want = run()
        p = Project(root, ropefolder=None)
        try:
            try:
                ch = getattr(ImportOrganizer(p), act)(p.get_resource("pkg/main.py"))
            except Exception as e:
                return {"status": "fail", "why": "%s raised %s on a package-internal module (%s)" % (act, type(e).__name__, shadow), "clause": "the action succeeds on a valid module",
                        "observed": {"exception": type(e).__name__, "action": act}, "witness_case": [act, "relative", shadow]}
            if ch is None:
                return {"status": "ok", "nontrivial": False}
            p.do(ch)
        finally:
            p.close()
        got = run()
        if got != want:
            return {"status": "fail", "why": "%s on a package-internal module with relative imports%s: `python -m pkg.main` prints %r instead of %r"
                    % (act, " (and a same-named top-level module)" if shadow else "", got, want),
                    "clause": "every name used in the module still resolves to the same object", "observed": {"action": act, "shadow": shadow},
                    "witness_case": [act, "relative", shadow]}
        return {"status": "ok", "nontrivial": True}
    finally:
        shutil.rmtree(root, ignore_errors=True)


def run_case(case):
    warnings.simplefilter("ignore")
    from rope.refactor.importutils import ImportOrganizer
    if case[0] == "relative":
        return _relative_case(case[1], case[2])
    p, f = _env()
    kind, a, b = case
    results = []
    if kind == "grid":
        body = "\n".join(u if u.startswith("__all__") else "print(%s)" % u for u in b)
        variants = [("\n".join(a) + "\n\n" + body + "\n", act, {}) for act in ACTS]
    elif kind == "fixed":
        variants = [(FIXED[a][0] + "\n" + FIXED[a][1], "organize_imports", {})]
    else:
        src = OFFSET[0] + "\n" + OFFSET[1]
        variants = [(src, "organize_imports", {"offset": 3}), (src, "organize_imports", {})]
    for src, act, kw in variants:
        want, g0 = _run(src)
        if "!" in want:
            continue            # the original module itself does not run: outside the property's domain
        f.write(src)
        try:
            ch = getattr(ImportOrganizer(p), act)(f, **kw)
        except Exception as e:
            results.append({"status": "fail", "why": "%s raised %s: %s" % (act, type(e).__name__, str(e)[:70]), "clause": "the action succeeds on a valid module",
                            "observed": {"exception": type(e).__name__, "action": act, "source": src}, "witness_case": [act, src]})
            continue
        if ch is None:
            results.append({"status": "ok", "nontrivial": False})
            continue
        p.do(ch)
        once = f.read()
        r = None
        try:
            compile(once, "m", "exec")
        except SyntaxError:
            r = ("the result does not compile", "the module still parses")
        if r is None:
            got, g1 = _run(once)
            if got != want:
                r = ("the module prints %r instead of %r" % (got, want), "every name used in the module still resolves to the same object")
            else:
                for name in (g0.get("__all__") or []):
                    if name in g0 and name not in g1:
                        r = ("the exported name %r is no longer available" % name, "names exported through __all__ stay available")
        if r is None and act in ("organize_imports", "expand_star_imports") and _non_import_lines(once) != _non_import_lines(src):
            r = ("lines that are not import statements changed", "only import statements change")
        if r is None:
            ch2 = getattr(ImportOrganizer(p), act)(f, **kw)
            if ch2 is not None:
                p.do(ch2)
                twice = f.read()
                if twice != once:
                    r = ("a second application changes the module again", "applying the same action a second time changes nothing")
        if r is None:
            results.append({"status": "ok", "nontrivial": True, "key": repr((case, act))})
        else:
            results.append({"status": "fail", "why": "%s: %s" % (act, r[0]), "clause": r[1], "observed": {"action": act, "source": src, "result": once},
                            "witness_case": [act, src]})
    return {"status": "multi", "results": results}

"""B3 stand-ins for C02 / C01 on a fixed catalogue of small programs (one per scoping feature) with a reference binder
(bounded/refbinder.py: ast scope tree, global/nonlocal, class-scope skipping, comprehension scopes, walrus hoisting, defaults in the
enclosing scope) as the specification of "binds to the same definition".
 find   : for every binding of every program and every token of the binding as the query point, findit.find_occurrences restricted to tracked
          tokens == the binding's token set (none missing, none foreign, independent of the query point).
 rename : for every binding and every token as the offset, Rename to a fresh name either raises RefactoringError or yields a text that parses, whose
          binder partition equals the original one under the offset map of the edits (alpha-equivalence), and that prints the same output."""
import contextlib
import io
import shutil
import tempfile
import warnings

from bounded.refbinder import Binder

programs = {
 "shadow_param": "x = 1\ndef f(x):\n    return x + 1\nprint(f(x), x)\n",
 "global_decl": "g = 0\ndef f():\n    global g\n    g = g + 1\n    return g\nprint(f(), g)\n",
 "nonlocal": "def outer():\n    n = 0\n    def inner():\n        nonlocal n\n        n += 1\n        return n\n    return inner() + n\nprint(outer())\n",
 "class_attr_vs_global": "v = 1\nclass C:\n    v = 2\n    w = v\n    def m(self):\n        return v\nprint(C.w, C().m(), v)\n",
 "comp_shadow": "i = 10\nr = [i for i in range(3)]\nprint(i, r)\n",
 "comp_outer_ref": "k = 2\nr = [k * j for j in range(3)]\nprint(r, k)\n",
 "walrus_comp": "def f(xs):\n    r = [y for x in xs if (y := x * 2)]\n    return r, y\nprint(f([1, 2]))\n",
 "default_arg": "d = 5\ndef f(d=d):\n    return d\nprint(f(), d)\n",
 "lambda_param": "z = 1\nf = lambda z: z + 1\nprint(f(2), z)\n",
 "import_alias": "import os as o\nprint(o.sep)\ndef f():\n    o = 1\n    return o\n",
 "from_import_as": "from os import sep as s\nprint(s)\ndef f(s):\n    return s\n",
 "except_as": "e = 0\ntry:\n    pass\nexcept Exception as e:\n    print(e)\n",
 "for_target": "t = 0\nfor t in range(2):\n    pass\nprint(t)\ndef f():\n    for t in range(2):\n        pass\n    return t\n",
 "closure": "def mk(a):\n    def add(b):\n        return a + b\n    return add\nprint(mk(1)(2))\n",
 "class_in_func": "def f(p):\n    class K:\n        q = p\n        def m(self):\n            return p\n    return K\n",
 "match_capture": "def f(v):\n    match v:\n        case [a, b]:\n            return a + b\n        case {'k': a}:\n            return a\n    return 0\n",
 "kwonly_posonly": "def f(p, /, q, *, r):\n    return p + q + r\nprint(f(1, 2, r=3))\n",
 "decorator": "def deco(fn):\n    return fn\n@deco\ndef g():\n    return deco\n",
 "kwarg_same_name": "def f(x):\n    return x\nx = 3\nprint(f(x=x))\n",
 "augassign": "c = 0\ndef f():\n    c = 1\n    c += 1\n    return c\nc += 2\n",
 "with_tuple": "def f(cm):\n    with cm as (a, b):\n        return a + b\n",
 "star_assign": "def f(xs):\n    h, *t = xs\n    return h, t\n",
 "global_nested": "g = 0\ndef o():\n    def i():\n        global g\n        g = 1\n    g = 5\n    i()\n    return g\n",
 "class_comp": "x = 1\nclass A:\n    x = 2\n    y = [x for _ in range(2)]\nprint(A.y)\n",
 "two_funcs_same_local": "def f():\n    t = 1\n    return t\ndef g():\n    t = 2\n    return t\n",
 "method_vs_func": "def run():\n    return 1\nclass C:\n    def run(self):\n        return run()\nprint(C().run(), run())\n",
 "self_attr_vs_local": "class C:\n    def __init__(self, val):\n        self.val = val\n        val = val + 1\n    def get(self):\n        return self.val\n",
 "del_name": "def f():\n    u = 1\n    del u\n    u = 2\n    return u\n",
 "nested_comp": "def f(m):\n    return [[c for c in r if c] for r in m]\n",
 "try_else_finally": "def f():\n    try:\n        w = 1\n    except Exception:\n        w = 2\n    else:\n        w += 1\n    finally:\n        print('x')\n    return w\n",
}


def _proj():
    from rope.base.project import Project
    d = tempfile.mkdtemp(prefix="verif-c02-")
    p = Project(d, ropefolder=None)
    return d, p, p.root.create_file("m.py")


def domain(tier, seed):
    cases = []
    for pname, src in programs.items():
        groups = Binder(src).bindings()
        for key in sorted(groups, key=str):
            if key[0] == "builtin" or key[0] == "unresolved-nonlocal":
                continue
            cases.append((pname, key[1], tuple(groups[key])))
    return cases


def find_case(case):
    warnings.simplefilter("ignore")
    from rope.base import exceptions
    from rope.contrib import findit
    pname, name, offs = case
    src = programs[pname]
    d, p, f = _proj()
    try:
        f.write(src)
        tracked = {o for v in Binder(src).bindings().values() for o in v}
        answers = {}
        for q in offs:
            try:
                locs = findit.find_occurrences(p, f, q)
                got = sorted({l.offset for l in locs if l.resource == f} & tracked)
            except exceptions.RopeError as e:
                got = "refused:" + type(e).__name__
            answers[q] = got
        wrong = {q: a for q, a in answers.items() if a != list(offs)}
        if wrong:
            kinds = {repr(v) for v in answers.values()}
            return {"status": "fail", "why": "occurrences of %r in %s: expected tokens %s, got %s%s" % (name, pname, list(offs), wrong,
                    " (answer depends on the query point)" if len(kinds) > 1 else ""),
                    "clause": "occurrences == tokens bound to the same definition, independent of the query point",
                    "observed": {"program": src, "answers": {str(k): v for k, v in answers.items()}}}
        return {"status": "ok", "key": repr(case), "nontrivial": len(offs) > 1}
    finally:
        p.close()
        shutil.rmtree(d, ignore_errors=True)


def _run(src):
    out = io.StringIO()
    try:
        with contextlib.redirect_stdout(out):
            exec(compile(src, "m", "exec"), {"__name__": "__main__"})
    except BaseException as e:
        return out.getvalue() + "!" + type(e).__name__
    return out.getvalue()


def _token_map(old, new):
    import tokenize

    def toks(text):
        starts = [0]
        for line in text.splitlines(True):
            starts.append(starts[-1] + len(line))
        out = []
        for t in tokenize.generate_tokens(io.StringIO(text).readline):
            if t.type in (tokenize.NAME, tokenize.OP, tokenize.NUMBER, tokenize.STRING):
                out.append((starts[t.start[0] - 1] + t.start[1], t.string))
        return out
    a, b = toks(old), toks(new)
    if len(a) != len(b):
        raise ValueError("token count %d -> %d" % (len(a), len(b)))
    return {x[0]: y[0] for x, y in zip(a, b)}


def rename_case(case):
    warnings.simplefilter("ignore")
    from rope.base import exceptions
    from rope.refactor.rename import Rename
    pname, name, offs = case
    src = programs[pname]
    new_name = "fresh_zq"
    before = Binder(src).bindings()
    want_out = _run(src)
    for q in offs:
        d, p, f = _proj()
        try:
            f.write(src)
            try:
                changes = Rename(p, f, q).get_changes(new_name)
                p.do(changes)
            except exceptions.RefactoringError:
                continue
            new = f.read()
            try:
                after = Binder(new).bindings()
            except SyntaxError as e:
                return {"status": "fail", "why": "renaming %r at offset %d in %s gives a module that does not parse: %s" % (name, q, pname, e),
                        "clause": "the renamed project still parses", "observed": {"program": src, "result": new}}
            # offset map induced by the edits: a rename keeps the token sequence, so the k-th token of the old text maps to the k-th of the new
            try:
                tmap = _token_map(src, new)
            except Exception as e:
                return {"status": "fail", "why": "renaming %r at offset %d in %s changed the token structure (%s)" % (name, q, pname, e),
                        "clause": "the renamed project still parses", "observed": {"program": src, "result": new}}

            def mp(o):
                return tmap[o]
            part_before = sorted(sorted(mp(o) for o in v) for k, v in before.items())
            part_after = sorted(sorted(v) for k, v in after.items())
            if part_before != part_after:
                return {"status": "fail", "why": "renaming %r at offset %d in %s changes which tokens bind together" % (name, q, pname),
                        "clause": "every occurrence refers to the same definition as before (alpha-equivalence)", "observed": {"program": src, "result": new}}
            got_out = _run(new)
            if got_out != want_out:
                return {"status": "fail", "why": "renaming %r at offset %d in %s changes the output: %r -> %r" % (name, q, pname, want_out, got_out),
                        "clause": "prints the same output", "observed": {"program": src, "result": new}}
        finally:
            p.close()
            shutil.rmtree(d, ignore_errors=True)
    return {"status": "ok", "key": repr(case), "nontrivial": len(offs) > 1}

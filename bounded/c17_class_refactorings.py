"""B3 stand-in for C17: the class-level refactorings on real projects, executed before and after.
 encapsulate : 19 usage shapes of `a.attr` (read, =, every augmented operator family, multi-line value, chain, call argument, comparisons, walrus,
               semicolons, comments, same-named keyword, del, other module, write on the last line without a trailing newline)
 factory     : IntroduceFactory (static and global) with clients importing the class in three styles, a client that contains the factory name in a string
 method_object, local_to_field, use_function (incl. slices with omitted bounds in another module; functions with an early return, which must be refused)."""
import os
import shutil
import subprocess
import sys
import tempfile
import warnings

CLS = "class A:\n    def __init__(self):\n        self.attr = 1\n        self.other = 2\n"
USES = {
    "read": "a = A()\nprint(a.attr)\n", "write": "a = A()\na.attr = 5\nprint(a.attr)\n", "aug+": "a = A()\na.attr += 5\nprint(a.attr)\n",
    "aug**": "a = A()\na.attr **= 3\nprint(a.attr)\n", "aug//": "a = A()\na.attr //= 2\nprint(a.attr)\n", "aug<<": "a = A()\na.attr <<= 2\nprint(a.attr)\n",
    "aug|": "a = A()\na.attr |= 6\nprint(a.attr)\n", "write_multiline": "a = A()\na.attr = (1 +\n    2)\nprint(a.attr)\n",
    "write_expr_reads": "a = A()\na.attr = a.attr * 2 + a.other\nprint(a.attr)\n",
    "chain": "class B:\n    def __init__(self):\n        self.a = A()\nb = B()\nb.a.attr = 7\nprint(b.a.attr)\n", "call_arg": "a = A()\nprint(max(a.attr, 3))\n",
    "compare": "a = A()\nprint(a.attr == 1, a.attr <= 2, a.attr != 0)\n", "walrus": "a = A()\nif (v := a.attr) > 0: print(v)\n",
    "semicolon": "a = A(); a.attr = 3; print(a.attr)\n", "write_then_comment": "a = A()\na.attr = 3  # set = it\nprint(a.attr)\n",
    "kwarg_same_name": "def f(attr=0): return attr\na = A()\nprint(f(attr=a.attr))\n", "del": "a = A()\ndel a.attr\nprint(hasattr(a, 'attr'))\n",
    "in_other_module": None, "last_line_write_no_newline": "OTHER",
    # values that continue onto later lines WITHOUT an open bracket (round-3 seed C17/4): a triple-quoted string, a backslash
    "write_triple_quoted": 'a = A()\na.attr = """first\nsecond"""\nprint(a.attr)\n', "write_backslash": "a = A()\na.attr = 1 + \\\n    2\nprint(a.attr)\n",
    "write_triple_quoted_then_read": "a = A()\na.attr = '''x\n(y'''\nb = a.attr\nprint(b)\n",
    # the same in a CLIENT module (the class module is then re-parsed without the client's text, so a broken client is written, not refused)
    "client_triple_quoted": 'CLIENT:box.attr = """first\nsecond"""\nprint(box.attr)\nbox.attr += "!"\n',
    "client_backslash": "CLIENT:box.attr = 1 + \\\n    2\nbox.attr *= 2\n",
    "client_bracket_multiline": "CLIENT:box.attr = ', '.join([\n    'a',\n    'b',\n])\nprint(box.attr)\n",
    "client_triple_quoted_paren": "CLIENT:box.attr = '''x\n(y'''\nprint(len(box.attr))\n",
}


def domain(tier, seed):
    return [("encapsulate", k) for k in sorted(USES)] + [("other", k) for k in sorted(OTHERS)]


def _run(root):
    r = subprocess.run([sys.executable, "-B", "main.py"], cwd=root, capture_output=True, text=True, timeout=60)
    return (r.returncode, r.stdout, (r.stderr.strip().splitlines() or [""])[-1])


def _files(root):
    return {f: open(os.path.join(root, f)).read() for f in os.listdir(root) if f.endswith(".py")}


def run_case(case):
    warnings.simplefilter("ignore")
    from rope.base.project import Project
    from rope.base import exceptions
    from rope.refactor.encapsulate_field import EncapsulateField
    kind, key = case
    if kind == "other":
        return OTHERS[key]()
    root = tempfile.mkdtemp(prefix="verif-c17-")
    try:
        p = Project(root, ropefolder=None)
        body = USES[key]
        if body is not None and body.startswith("CLIENT:"):
            p.root.create_file("mod.py").write(CLS)
            p.root.create_file("client.py").write("from mod import A\nbox = A()\n" + body[len("CLIENT:"):])
            p.root.create_file("main.py").write("import client\nprint(client.box.attr)\n")
            res, off = p.get_file("mod.py"), CLS.index("attr")
        elif body is None or body == "OTHER":
            p.root.create_file("mod.py").write(CLS)
            p.root.create_file("main.py").write("from mod import A\na = A()\na.attr += 2\nprint(a.attr)\n" if body is None
                                                else "from mod import A\nbox = A()\nprint(box.attr)\n")
            if body == "OTHER":
                p.root.create_file("client.py").write("from mod import A\nbox = A()\nbox.attr = box.attr * 3")
                p.get_file("main.py").write("import client\nprint(client.box.attr)\n")
            res, off = p.get_file("mod.py"), CLS.index("attr")
        else:
            src = CLS + body
            p.root.create_file("main.py").write(src)
            res, off = p.get_file("main.py"), src.index("attr")
        before = _run(root)
        try:
            p.do(EncapsulateField(p, res, off).get_changes())
        except exceptions.RopeError:
            return {"status": "ok", "nontrivial": False, "key": key}
        except Exception as e:
            return {"status": "fail", "why": "EncapsulateField raised %s: %s" % (type(e).__name__, str(e)[:70]), "clause": "refused with the library's error",
                    "observed": {"exception": type(e).__name__}}
        after = _run(root)
        p.close()
        if after != before:
            return {"status": "fail", "why": "encapsulating the field changes the program (%s): %r -> %r" % (key, before, after),
                    "clause": "reads become getter calls, writes and augmented writes become setter calls, behaviour is identical", "observed": {"files": _files(root)}}
        return {"status": "ok", "nontrivial": True, "key": key}
    finally:
        shutil.rmtree(root, ignore_errors=True)


def _scenario(name, files, act):
    def run():
        from rope.base.project import Project
        from rope.base import exceptions
        root = tempfile.mkdtemp(prefix="verif-c17o-")
        try:
            for path, src in files.items():
                with open(os.path.join(root, path), "w") as f:
                    f.write(src)
            p = Project(root, ropefolder=None)
            before = _run(root)
            try:
                p.do(act(p))
            except exceptions.RopeError:
                return {"status": "ok", "nontrivial": False, "key": name}
            except Exception as e:
                return {"status": "fail", "why": "%s raised %s: %s" % (name, type(e).__name__, str(e)[:70]), "clause": "refused with the library's error",
                        "observed": {"exception": type(e).__name__}, "witness_case": ["other", name]}
            after = _run(root)
            p.close()
            if after != before:
                return {"status": "fail", "why": "%s changes the program: %r -> %r" % (name, before, after), "clause": "the project parses and behaves identically",
                        "observed": {"files": _files(root)}, "witness_case": ["other", name]}
            return {"status": "ok", "nontrivial": True, "key": name}
        finally:
            shutil.rmtree(root, ignore_errors=True)
    return run


def _mk():
    from rope.refactor.introduce_factory import IntroduceFactory
    from rope.refactor.method_object import MethodObject
    from rope.refactor.localtofield import LocalToField
    from rope.refactor.usefunction import UseFunction
    W = "class Widget:\n    def __init__(self, n):\n        self.n = n\n"
    out = {}
    for style, client in (("from", "from widgets import Widget\nw = Widget(3)\nprint(w.n, 'created %d' % w.n)\n"),
                          ("plain", "import widgets\nw = widgets.Widget(3)\nprint(w.n, 'created %d' % w.n)\n"),
                          ("alias", "import widgets as ws\nw = ws.Widget(3)\nprint(w.n, 'created %d' % w.n)\n")):
        for glob in (False, True):
            out["factory_%s_%s" % (style, "global" if glob else "static")] = _scenario(
                "factory_%s_%s" % (style, "global" if glob else "static"), {"widgets.py": W, "main.py": client},
                (lambda glob: lambda p: IntroduceFactory(p, p.get_file("widgets.py"), W.index("Widget")).get_changes("created", global_factory=glob))(glob))
    MO = "def compute(a, b):\n    t = a * b\n    u = t + a\n    return u - b\n\n\nprint(compute(2, 3))\n"
    out["method_object"] = _scenario("method_object", {"main.py": MO}, lambda p: MethodObject(p, p.get_file("main.py"), MO.index("compute")).get_changes("_Compute"))
    LF = "class K:\n    def run(self, x):\n        tmp = x * 2\n        return tmp + 1\n\n    def twice(self, x):\n        return self.run(x) + self.run(x)\n\n\nprint(K().twice(3))\n"
    out["local_to_field"] = _scenario("local_to_field", {"main.py": LF}, lambda p: LocalToField(p, p.get_file("main.py"), LF.index("tmp")).get_changes())
    UF = "def head(items, count):\n    return items[:count]\n"
    out["use_function_slices"] = _scenario(
        "use_function_slices", {"listutil.py": UF, "main.py": "import listutil\nnames = ['a', 'b', 'c', 'd']\nn = 2\nprint(names[:n], names[n:], names[::n], listutil.head(names, 1))\n"},
        lambda p: UseFunction(p, p.get_file("listutil.py"), UF.index("head")).get_changes())
    UF2 = "def square(x):\n    return x * x\n"
    out["use_function_expr"] = _scenario(
        "use_function_expr", {"mathutil.py": UF2, "main.py": "import mathutil\na, b = 3, 4\nprint(a * a, b * b, a * b, mathutil.square(2))\n"},
        lambda p: UseFunction(p, p.get_file("mathutil.py"), UF2.index("square")).get_changes())
    # shapes that use-function must refuse (round-3 seed C17/5): an early return -- bare or with a value -- that is not the last statement
    UF3 = "def report(value):\n    if not value:\n        return\n    print('value:', value)\n"
    out["use_function_guard_clause"] = _scenario(
        "use_function_guard_clause", {"reportutil.py": UF3, "main.py": "def show(item):\n    if not item:\n        pass\n    print('value:', item)\n\n\nshow(3)\nshow(0)\nshow('')\n"},
        lambda p: UseFunction(p, p.get_file("reportutil.py"), UF3.index("report")).get_changes())
    UF4 = "def first_or_zero(items):\n    if items:\n        return items[0]\n    print('empty')\n"
    out["use_function_early_value_return"] = _scenario(
        "use_function_early_value_return", {"firstutil.py": UF4, "main.py": "def f(xs):\n    if xs:\n        r = xs[0]\n    print('empty')\n\n\nf([1])\nf([])\n"},
        lambda p: UseFunction(p, p.get_file("firstutil.py"), UF4.index("first_or_zero")).get_changes())
    # a generator whose only yield sits inside its return statement must be refused as well (defect repaired by 2a6d446)
    UF5 = "def relay(x):\n    return (yield x)\n"
    out["use_function_yield_in_return"] = _scenario(
        "use_function_yield_in_return", {"gens.py": UF5, "main.py": "import gens\n\n\ndef g(a):\n    got = (yield a)\n    print('got', got)\n\n\nit = g(1)\nprint(next(it))\n"
                                                                   "try:\n    it.send(5)\nexcept StopIteration:\n    print('done')\n"},
        lambda p: UseFunction(p, p.get_file("gens.py"), UF5.index("relay")).get_changes())
    return out


class _Lazy(dict):
    def _load(self):
        if not dict.__len__(self):
            self.update(_mk())

    def __iter__(self):
        self._load()
        return dict.__iter__(self)

    def __getitem__(self, k):
        self._load()
        return dict.__getitem__(self, k)


OTHERS = _Lazy()
